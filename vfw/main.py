#!/usr/bin/env python3
"""./check <ID> quick|thorough   |   ./check --replay <file>   |   ./check --emit <unit> [dir]   |   ./check --unit <unit>"""
import json
import os
import shutil
import sys
import tempfile
import time

sys.path.insert(0, os.path.dirname(os.path.abspath(__file__)))
import unit as U  # noqa: E402

VERIF = U.VERIF
REG = json.load(open(os.path.join(VERIF, "registry.json")))


def load_known():
    """known_findings.txt: `finding: property=<id> obligation=<substring> ...` and `fixed: ...` (fixed entries suppress nothing)"""
    out = []
    p = os.path.join(VERIF, "known_findings.txt")
    if not os.path.exists(p):
        return out
    for ln in open(p, encoding="utf-8"):
        ln = ln.strip()
        if ln.startswith("finding:"):
            kv = {}
            rest = ln[len("finding:"):].strip()
            import re
            m = re.match(r"property=(\S+)\s+obligation=\"([^\"]+)\"\s*(.*)$", rest)
            if m:
                out.append({"property": m.group(1), "obligation": m.group(2), "what": m.group(3)})
    return out


def write_replay(pid, failure, res_cmd, built, extra=None):
    d = os.path.join(VERIF, "replays", pid)
    os.makedirs(d, exist_ok=True)
    import hashlib
    h = hashlib.sha256(failure["obligation"].encode()).hexdigest()[:10]
    path = os.path.join(d, "%s-%s.json" % (failure["unit"], h))
    fninfo = [f for f in built.functions if f["item"] == failure["fn"]]
    doc = {
        "property": pid,
        "failed_obligation": failure["obligation"],
        "kind": failure["kind"],
        "verifier": "verus",
        "verifier_message": failure["message"],
        "failed_clause": failure["clause"],
        "reported_at": failure["at"],
        "spans": failure["spans"],
        "source": fninfo[0] if fninfo else None,
        "checker_cmd": res_cmd,
        "replay_cmd": "./check --replay %s" % os.path.relpath(path, VERIF),
        "unit": failure["unit"],
        "failing_input": None,
    }
    if extra:
        doc.update(extra)
    with open(path, "w", encoding="utf-8") as fh:
        json.dump(doc, fh, indent=1)
    return path


def run_finder(unit_name, failure, scratch):
    """bounded replay finder of the unit (real compiled code against the executable contract), if one exists"""
    import finders
    fn = finders.FINDERS.get(unit_name)
    if not fn:
        return None
    try:
        return fn(scratch, failure)
    except Exception as e:  # a finder problem never changes a verdict
        return {"error": "finder failed: %s" % e}


def finder_props(why, spec):
    import re
    return re.findall(r"\((C\d+)\)", why)


HARNESS_NOTES = []


def finder_fallback(pid, uname, und, scratch, spec, b=None):
    """Verus could not decide this unit (a function was rewritten beyond what the annotations / rules fit).
    Bounded fallback, labelled as such: the unit's finder runs the real compiled code against the executable
    contract; a concrete failing input is a violation in its own right, anything else leaves the unit undecided."""
    fr = run_finder(uname, None, scratch)
    if not fr:
        return None
    mine = [f for f in (fr.get("result") or {}).get("failures", []) if pid in finder_props(f.get("why", ""), spec)]
    if not mine:
        inc = (fr.get("result") or {}).get("panicked_tests") or []
        if inc or not (fr.get("result") or {}).get("built", True):
            HARNESS_NOTES.append("finder of unit %s did not run to completion: %s" % (uname, "; ".join(inc)[:300] or "build failed"))
        return None
    fr["input"] = dict(fr.get("input") or {}, case=mine[0]["case"], why=mine[0]["why"])
    v = {"obligation": "%s/executable-contract (bounded fallback, Verus undecided): %s" % (uname, fr["input"]["why"][:200]), "unit": uname, "fn": "-", "kind": "runtime",
         "message": "verifier undecided (%s); the real compiled code fails the executable form of the contract on a concrete input" % "; ".join(und)[:300],
         "clause": fr["input"]["why"], "at": fr["input"]["case"], "spans": [], "props": [pid]}
    if b is None:
        b = U.Built()
        b.functions = []
    path = write_replay(pid, v, "finder", b, {"failing_input": fr["input"], "finder": fr})
    return (v, path, True)


def check_property(pid, tier, keep=False):
    t0 = time.time()
    seed = int(os.environ.get("VERIF_SEED", "0") or 0)
    spec = REG["properties"][pid]
    scratch = tempfile.mkdtemp(prefix="verif-%s-" % pid)
    violations, undecided, notes, known_hits = [], [], [], []
    bounded_runs = []
    fallback_tried, undecided_units = set(), []
    cov_functions, rewrite_log, breakdown, trusted, cmds, clauses = [], [], [], {}, [], {}
    cov_types = []
    unref = [0]
    stubs_used = []
    assumed_fns = []
    verus_s = 0.0
    smt_us = 0
    thorough_info = {}
    try:
        known = [k for k in load_known() if k["property"] == pid]
        for uname in spec["units"]:
            try:
                b = U.build_unit(uname, scratch)
            except U.UnitError as e:
                undecided.append("%s: %s" % (uname, e))
                fallback_tried.add(uname)
                undecided_units.append((uname, [str(e)]))
                v = finder_fallback(pid, uname, [str(e)], scratch, spec)
                if v:
                    violations.append(v)
                continue
            res = U.run_verus(b, seed=None)
            cmds.append(res["cmd"].replace(scratch, "<scratch>"))
            verus_s += res["wall_s"]
            failures, und = U.classify(b, res)
            # Failed hints (untagged asserts) decide nothing and, being assumed once they fail, can hide the clause that really
            # fails: take them out (neither checked nor assumed) and let the clauses of the contract speak.  At most 3 rounds.
            dropped_hints = []
            for _round in range(3):
                hints = [f for f in failures if f.get("proof_step_only")]
                if not hints or [u for u in und if not u.startswith("solver limit")]:
                    break
                n = U.neutralise_asserts(b, hints)
                if n == 0:
                    break
                dropped_hints += [f["obligation"] for f in hints]
                res = U.run_verus(b, seed=None)
                verus_s += res["wall_s"]
                failures, und = U.classify(b, res)
            if dropped_hints:
                notes.append("%s: %d proof hint(s) no longer hold next to the changed code and were taken out (neither checked nor assumed): %s" % (uname, len(dropped_hints), "; ".join(dropped_hints)[:400]))
            if failures:
                # a solver limit reported next to failed clauses of the same run is not a separate verdict
                und = [u for u in und if not u.startswith("solver limit")]
            undecided += ["%s: %s" % (uname, u) for u in und]
            for f in b.functions:
                if f.get("kind") == "fn" and (pid in f.get("props", []) or not f.get("props")):
                    cov_functions.append(f)
                elif f.get("kind") != "fn":
                    cov_types.append(f)
            rewrite_log += b.log
            fb = U.function_breakdown(res, b)
            breakdown += [dict(x, unit=uname) for x in fb]
            smt_us += sum(x["time_us"] or 0 for x in fb)
            tr = U.scan_trusted(b)
            for k, v in tr.items():
                if k == "unreferenced_prelude_stubs":
                    unref[0] += v
                    continue
                trusted.setdefault(k, [])
                trusted[k] += [x for x in v if x not in trusted[k]]
            stubs_used += getattr(b, "stubs", [])
            assumed_fns += getattr(b, "assumed_repo_fns", [])
            if any("IN-EXTRACTED-BODY" in a for a in tr["assume"]) or tr["admit"]:
                undecided.append("%s: assume/admit inside verified text: %s" % (uname, tr["assume"] + tr["admit"]))
            for k, v in U.clause_counts(b).items():
                clauses[k] = clauses.get(k, 0) + v
            seen_obl = set()
            mine = [f for f in failures if pid in f["props"]]
            steps_only = bool(mine) and all(f.get("proof_step_only") for f in mine)
            if steps_only:
                und = und + ["proof step no longer goes through: %s" % f["obligation"] for f in mine]
                undecided += ["%s: proof step no longer goes through (no clause of the contract failed): %s" % (uname, f["obligation"]) for f in mine]
                failures = [f for f in failures if f not in mine]
            for f in failures:
                if f["obligation"] in seen_obl:
                    continue
                seen_obl.add(f["obligation"])
                if pid in f["props"] and f.get("proof_step_only"):
                    notes.append("proof step that no longer goes through (next to the failed clause): %s" % f["obligation"])
                    continue
                if pid in f["props"]:
                    kf = [k for k in known if k["obligation"] in f["obligation"]]
                    if kf:
                        known_hits.append((kf[0], f))
                        continue
                    extra = None
                    if tier == "thorough" or True:
                        fr = run_finder(uname, f, scratch)
                        if fr:
                            extra = {"failing_input": fr.get("input"), "finder": fr}
                    path = write_replay(pid, f, res["cmd"], b, extra)
                    violations.append((f, path, bool(extra and extra.get("failing_input"))))
                else:
                    notes.append("obligation of %s failed (not attributed to %s): %s" % (",".join(f["props"]), pid, f["obligation"]))
            if und and not [f for f in failures if pid in f["props"]]:
                fallback_tried.add(uname)
                undecided_units.append((uname, und))
                v = finder_fallback(pid, uname, und, scratch, spec, b)
                if v:
                    violations.append(v)
            if tier == "thorough" and not und:
                import thorough
                thorough_info[uname] = thorough.run(b, scratch, pid, seed, failures)
                for u in thorough_info[uname].get("undecided", []):
                    undecided.append("%s: %s" % (uname, u))
                for v in thorough_info[uname].pop("violations", []):
                    if pid not in finder_props(v.get("message", ""), spec):
                        notes.append("run-time cross-check failure attributed to another property: " + v["obligation"])
                        continue
                    path = write_replay(pid, v, v.get("cmd", ""), b, {"failing_input": v.get("input"), "finder": v})
                    violations.append((v, path, True))
        # A change in a helper (say is_path_prefix, unit index) shows through the functions that use it (analyze_change, unit analyze):
        # when a unit of this property is undecided and its own finder saw nothing, the finders of the property's other units get a turn
        if undecided_units and not violations:
            for other in spec["units"]:
                if other in fallback_tried:
                    continue
                fallback_tried.add(other)
                v = finder_fallback(pid, other, ["unit %s undecided: %s" % (undecided_units[0][0], "; ".join(undecided_units[0][1])[:200])], scratch, spec)
                if v:
                    violations.append(v)
                    break
        # Bounded stand-ins (labelled bounded, never counted as proved): functions the property depends on that are not within the
        # verifier's reach are exercised on every run - the real compiled code against the executable form of the statement.
        for bc in spec.get("bounded_checks", []):
            import finders
            os.environ["VERIF_TIER"] = tier
            r = finders.run_crate_finder(bc["unit"], scratch, only=bc.get("only"), spec=(bc["host"], bc["file"]))
            rec = {"function": bc["function"], "bound": bc["bound"], "finder": bc["file"], "cmd": r["cmd"], "summaries": r["summaries"], "built": r["built"], "label": "bounded - not a proof"}
            bounded_runs.append(rec)
            if not r["built"]:
                undecided.append("bounded check of %s did not build: %s" % (bc["function"], (r["build_error"] or "")[-300:]))
                continue
            if r["panicked_tests"] and not r["failures"]:
                undecided.append("bounded check of %s: test harness panicked: %s" % (bc["function"], r["panicked_tests"]))
            mine = [f for f in r["failures"] if pid in finder_props(f["why"], spec)]
            if mine:
                v = {"obligation": "%s/executable-statement (bounded check, function not under a Verus contract): %s" % (bc["function"], mine[0]["why"][:200]), "unit": bc["unit"], "fn": bc["function"], "kind": "runtime",
                     "message": "the real compiled code fails the executable form of the statement on a concrete input", "clause": mine[0]["why"], "at": mine[0]["case"], "spans": [], "props": [pid]}
                bb = U.Built()
                bb.functions = []
                path = write_replay(pid, v, "finder", bb, {"failing_input": {"case": mine[0]["case"], "why": mine[0]["why"], "rerun": r["cmd"]}, "finder": r})
                violations.append((v, path, True))
    finally:
        if keep:
            print("scratch kept at", scratch)
        else:
            shutil.rmtree(scratch, ignore_errors=True)
    wall = time.time() - t0
    own = [x for x in breakdown if not x["function"].startswith("vstd::")]
    n_obl = len(own)
    n_ok = sum(1 for x in own if x["success"])
    exec_fns = [x for x in own if x["mode"] == "exec"]
    tb = []
    for k in ("assume_specification", "external_body", "uninterp", "axiom", "no_decreases", "assume", "admit", "external"):
        for x in trusted.get(k, []):
            tb.append("%s: %s" % (k, x))
    tb += ["Verus 0.2026.09.13 + Z3 (bundled)", "rustc front end of Verus", "extractor/rewriter/splicer of /verif/vfw (mitigated by the token-level erasure check on every run)"]
    ev = {
        "property_id": pid,
        "tier": tier,
        "seed": seed,
        "level": "proof",
        "coverage": {
            "obligations": n_obl,
            "discharged": n_ok,
            "checker_cmd": " ; ".join(cmds),
            "trusted_base": tb,
            "back_end": "Verus (Z3)",
            "contracts_proved_in_other_units_and_assumed_here": sorted(set(stubs_used)),
            "repository_functions_assumed_by_hand_written_contract_text_fingerprinted": sorted(set(assumed_fns)),
            "prelude_stubs_present_but_not_referenced_by_this_unit": unref[0],
            "explanation": "obligations = Verus verification units (functions and lemmas, each the conjunction of its ensures / call-site requires / loop invariants / decreases / safety conditions) generated from the unit files built from /repo's working tree on this run; discharged = those Z3 proved.",
            "clause_counts_in_extracted_functions": clauses,
            "functions_under_contract": [{k: f[k] for k in ("item", "file", "lines", "sha256", "match", "kind")} for f in cov_functions],
            "types_extracted": [f["item"] for f in cov_types],
            "exec_functions_verified": [x["function"] for x in exec_fns if x["success"]],
            "samples": [x["function"] + " (" + str(x["mode"]) + ")" for x in own[:12]],
            "rewrite_rule_applications": rewrite_log[:200],
            "smt_time_s": round(smt_us / 1e6, 3),
            "verus_wall_s": round(verus_s, 2),
            "undecided": undecided,
            "notes": notes,
            "known_findings_reported": [k["obligation"] for k, _ in known_hits],
            "thorough": thorough_info,
            "not_covered": spec.get("not_covered", []),
            "bounded_checks_not_proved": bounded_runs,
        },
        "assumptions": spec.get("assumptions", []),
        "wall_s": round(wall, 2),
        "violations": len(violations),
    }
    os.makedirs(os.path.join(VERIF, "evidence"), exist_ok=True)
    with open(os.path.join(VERIF, "evidence", pid + ".json"), "w", encoding="utf-8") as fh:
        json.dump(ev, fh, indent=1)
    print("property %s tier=%s units=%s: %d/%d verification units discharged, %d exec functions under contract, verus %.1fs, wall %.1fs" % (
        pid, tier, ",".join(spec["units"]), n_ok, n_obl, len(cov_functions), verus_s, wall))
    for n in notes:
        print("note:", n)
    for k, f in known_hits:
        print("KNOWN-FINDING: property=%s %s [%s]" % (pid, k["what"], f["obligation"]))
    if violations:
        for f, path, has_input in violations:
            print("failed obligation: %s" % f["obligation"])
            print("  verifier: %s" % f.get("message", ""))
            print("VIOLATION property=%s replay=%s%s" % (pid, path, "" if has_input else " no-failing-input-found"))
        return 1
    if undecided:
        for u in undecided + HARNESS_NOTES:
            print("UNDECIDED:", u)
        return 2
    return 0


def main(argv):
    if len(argv) >= 2 and argv[0] == "--emit":
        d = argv[2] if len(argv) > 2 else tempfile.mkdtemp(prefix="verif-emit-")
        os.makedirs(d, exist_ok=True)
        b = U.build_unit(argv[1], d)
        print(b.path)
        for f in b.functions:
            print("  %-50s %s" % (f["item"], f["match"]))
        return 0
    if len(argv) >= 2 and argv[0] == "--unit":
        d = tempfile.mkdtemp(prefix="verif-unit-")
        try:
            b = U.build_unit(argv[1], d)
            for f in b.functions:
                print("  %-50s %s" % (f["item"], f["match"]))
            res = U.run_verus(b)
            fl, und = U.classify(b, res)
            vr = (res["json"] or {}).get("verification-results")
            print(vr)
            for f in fl:
                print("FAIL", f["props"], f["obligation"], "| at:", f["at"][:100])
            for u in und:
                print("UNDECIDED", u)
            if "--keep" in argv:
                print("kept", d)
        finally:
            if "--keep" not in argv:
                shutil.rmtree(d, ignore_errors=True)
        return 0
    if len(argv) >= 2 and argv[0] == "--replay-graph-case":
        import finders
        d = tempfile.mkdtemp(prefix="verif-replay-")
        try:
            exe = finders.build_graph_finder(d)
            r = finders.run_graph_finder(exe, ["case", argv[1]])
            for f in r["failures"]:
                print("real core/graph.rs FAILS the executable contract on case %s: %s" % (f["case"], f["why"]))
            if not r["failures"]:
                print("case %s: the real code satisfies the executable contract" % argv[1])
            return 1 if r["failures"] else 0
        finally:
            shutil.rmtree(d, ignore_errors=True)
    if len(argv) >= 2 and argv[0] == "--run-finder":
        import finders
        d = tempfile.mkdtemp(prefix="verif-finder-")
        try:
            r = finders.FINDERS[argv[1]](d, None)
            print(json.dumps(r, indent=1)[:4000])
            return 1 if r.get("input") else 0
        finally:
            shutil.rmtree(d, ignore_errors=True)
    if len(argv) >= 2 and argv[0] == "--replay":
        import replay
        return replay.main(argv[1])
    if len(argv) < 1 or argv[0] not in REG["properties"]:
        print(__doc__)
        return 2
    tier = argv[1] if len(argv) > 1 else os.environ.get("VERIF_TIER", "quick")
    return check_property(argv[0], tier, keep="--keep" in argv)


if __name__ == "__main__":
    try:
        sys.exit(main(sys.argv[1:]))
    except U.UnitError as e:
        print("UNDECIDED:", e)
        sys.exit(2)
    except SystemExit:
        raise
    except BaseException as e:  # a tool problem is never an alarm
        import traceback
        traceback.print_exc()
        print("UNDECIDED: internal error of the checking machinery: %r" % (e,))
        sys.exit(2)
