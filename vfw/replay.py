"""./check --replay <file>: re-run what a replay file describes against /repo's current tree."""
import json
import os
import shutil
import subprocess
import sys
import tempfile

import unit as U


def main(path):
    if not os.path.isabs(path):
        path = os.path.join(U.VERIF, path)
    doc = json.load(open(path))
    print("property %s, failed obligation: %s" % (doc["property"], doc["failed_obligation"]))
    print("verifier message: %s" % doc.get("verifier_message"))
    inp = doc.get("failing_input")
    rc = 0
    if inp and inp.get("rerun"):
        print("re-running the concrete input on the real code: %s" % inp["rerun"])
        r = subprocess.run(inp["rerun"], shell=True, cwd=U.VERIF)
        rc = r.returncode
    # re-check the obligation with the verifier
    d = tempfile.mkdtemp(prefix="verif-replay-")
    try:
        b = U.build_unit(doc["unit"], d)
        res = U.run_verus(b)
        fl, und = U.classify(b, res)
        hit = [f for f in fl if f["obligation"] == doc["failed_obligation"]]
        if hit:
            print("verus still refutes/cannot prove the obligation on the current tree: %s" % hit[0]["message"])
            rc = 1
        elif und:
            print("verus: undecided on the current tree: %s" % und[:2])
        else:
            print("verus: the obligation is discharged on the current tree")
    except U.UnitError as e:
        print("unit undecided:", e)
    finally:
        shutil.rmtree(d, ignore_errors=True)
    return rc
